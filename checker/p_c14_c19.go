package main

import (
	"fmt"
	"go/token"
	"go/types"
	"sort"
	"strings"

	"golang.org/x/tools/go/ssa"
)

func init() {
	register("C14",
		"Structural necessary conditions of C14 decided from /repo's SSA: (families) options are grouped by the variable their pflag.Value writes (directly, through a constructor argument or through a composite-literal field); every read of a sizer.* gitconfig key is control-dependent on !flags.Changed(f) for every option f of the family bound to the variable the read is assigned to; (constants) --verbose sets 0, --no-verbose 1, --critical 30, a false value 1, the default is 1, -v/-j are the short forms, and the gitconfig threshold and names values go through the same parsers as the options, every successful Set of a boolean threshold option writes the shared variable exactly once, and typed gitconfig reads ask git for the canonical form (--bool / --int) of what they parse; (aliases) --include-regexp R and --include /R/ reach the same regexp filter with the same combiner, and --refgroup G and --include @G both combine a refgroup filter on the looked-up group with Include. Not decided: byte-identical output of paired runs.",
		[]string{"spf13/pflag: Changed(name) is true iff the option was given; Set is called in command-line order"},
		ruleC14Families, ruleC14Constants, ruleC14Aliases, ruleC14Flex, ruleC14ConfigTypes)
	register("C19",
		"Structural necessary conditions of C19 decided from /repo's SSA: (json) every MarshalJSON in the module returns the result of encoding/json (or, for object ids, hex digits between constant quotes) and the bytes written for --json are the unmodified result of json.MarshalIndent; (footnotes) a new footnote's number and its append are in the same unseen-text branch with number = count+1, numbering at print time is by position, empty text yields no citation, citations are created only while emitting a row and reach the row's citation column; (unbounded-lines) no line-oriented stage downstream of a git command whose lines carry names (rev-list --objects paths, for-each-ref refnames) uses a length-capped scanner. Not decided: validity of the emitted JSON and table for concrete byte strings (encoding/json is trusted to escape).",
		[]string{"encoding/json escapes every string it marshals", "bufio.Scanner fails on tokens longer than its buffer limit (64 KiB by default)"},
		ruleC19JSON, ruleC19Footnotes, ruleC19UnboundedLines, ruleC19NoCrash)
}

// ---------------- C14 ----------------

// An option variable: a local cell, or a field of a local struct
// (`opts.threshold`). Comparable.
type fieldVarKey struct {
	Cell  *ssa.Alloc
	Field int
}

// varKey names the variable behind an address (nil if it is not a local
// variable or a field of one).
func (c *Ctx) varKey(addr ssa.Value) interface{} {
	switch x := addr.(type) {
	case *ssa.Alloc:
		return x
	case *ssa.FreeVar:
		if cell := c.cellOf(x); cell != nil {
			return cell
		}
	case *ssa.FieldAddr:
		base := c.resolve(x.X)
		if cell := c.cellOf(base); cell != nil {
			return fieldVarKey{cell, x.Field}
		}
	}
	return nil
}

func varKeyName(k interface{}) string {
	switch x := k.(type) {
	case *ssa.Alloc:
		return x.Comment
	case fieldVarKey:
		name := fmt.Sprintf("#%d", x.Field)
		if st, ok := x.Cell.Type().Underlying().(*types.Pointer).Elem().Underlying().(*types.Struct); ok && x.Field < st.NumFields() {
			name = st.Field(x.Field).Name()
		}
		return x.Cell.Comment + "." + name
	}
	return "?"
}

// storesToVar lists the stores into an option variable (in the function
// that declares it and its closures).
func (c *Ctx) storesToVar(k interface{}) []*ssa.Store {
	switch x := k.(type) {
	case *ssa.Alloc:
		return c.cellStores(x)
	case fieldVarKey:
		var out []*ssa.Store
		for _, f := range c.ModFns {
			allInstrs(f, func(in ssa.Instruction) {
				if st, ok := in.(*ssa.Store); ok {
					if c.varKey(st.Addr) == k {
						out = append(out, st)
					}
				}
			})
		}
		return out
	}
	return nil
}

// cellsOfFlagValue: the option variables a registered pflag.Value writes.
func (c *Ctx) cellsOfFlagValue(v ssa.Value, depth int) []interface{} {
	if depth > 4 {
		return nil
	}
	switch x := v.(type) {
	case *ssa.MakeInterface:
		return c.cellsOfFlagValue(x.X, depth+1)
	case *ssa.ChangeType:
		return c.cellsOfFlagValue(x.X, depth+1)
	case *ssa.FieldAddr:
		if k := c.varKey(x); k != nil {
			return []interface{}{k}
		}
	case *ssa.Alloc:
		et := x.Type().Underlying().(*types.Pointer).Elem()
		if _, isStruct := et.Underlying().(*types.Struct); isStruct && x.Comment == "complit" {
			var out []interface{}
			for _, r := range *x.Referrers() {
				if fa, ok := r.(*ssa.FieldAddr); ok {
					for _, st := range storesTo(fa) {
						out = append(out, c.cellsOfFlagValue(st.Val, depth+1)...)
					}
				}
			}
			return out
		}
		return []interface{}{x}
	case *ssa.Call:
		var out []interface{}
		for _, a := range x.Call.Args {
			if _, ok := a.Type().Underlying().(*types.Pointer); ok {
				out = append(out, c.cellsOfFlagValue(a, depth+1)...)
			}
		}
		return out
	}
	return nil
}

func ruleC14Families(c *Ctx) {
	mainImpl := c.fn("", "", "mainImplementation")
	if mainImpl == nil {
		c.violate("C14.families", "main", token.NoPos, "", "main.mainImplementation not found")
		return
	}
	name := fnName(mainImpl)
	families := map[interface{}][]string{}
	for _, r := range c.flagRegs() {
		if r.Call.Parent() != mainImpl {
			continue
		}
		for _, cell := range c.cellsOfFlagValue(r.ValueArg, 0) {
			families[cell] = append(families[cell], r.Name)
		}
	}
	// reads of sizer.* keys
	n := 0
	allInstrs(mainImpl, func(in ssa.Instruction) {
		call, ok := in.(*ssa.Call)
		if !ok {
			return
		}
		cal := call.Call.StaticCallee()
		if cal == nil || pkgOf(cal) != modPath+"/git" || !strings.HasPrefix(refName(cal), "Config") || len(call.Call.Args) < 2 {
			return
		}
		key, ok := constStr(call.Call.Args[1])
		if !ok || !strings.HasPrefix(key, "sizer.") {
			return
		}
		n++
		// which option variable receives the value?
		var target interface{}
		seen := map[ssa.Value]bool{}
		var follow func(v ssa.Value, depth int)
		follow = func(v ssa.Value, depth int) {
			if depth > 5 || seen[v] || target != nil {
				return
			}
			seen[v] = true
			refs := v.Referrers()
			if refs == nil {
				return
			}
			for _, r := range *refs {
				switch x := r.(type) {
				case *ssa.Extract:
					if x.Index == 0 {
						follow(x, depth+1)
					}
				case *ssa.Store:
					if al := c.varKey(x.Addr); al != nil && x.Val == v {
						if _, isFam := families[al]; isFam {
							target = al
						}
					}
				case *ssa.Convert:
					follow(x, depth+1)
				case *ssa.ChangeType:
					follow(x, depth+1)
				case *ssa.Call:
					// value passed on: a parser (ParseFloat) or a Set method on the variable
					for _, a := range x.Call.Args {
						if al := c.varKey(a); al != nil {
							if _, isFam := families[al]; isFam {
								target = al
							}
						}
					}
					if target == nil {
						follow(x, depth+1)
					}
				case *ssa.Phi:
					follow(x, depth+1)
				}
			}
		}
		follow(call, 0)
		if target == nil {
			c.undecided("C14.families", key, call.Pos(), name, "cannot tell which option variable the gitconfig value of "+key+" is assigned to")
			return
		}
		fam := uniq(families[target])
		guards := map[string]bool{}
		for _, f := range factsAt(call.Block()) {
			cond, truth := normCond(f.Cond, f.Truth)
			ch, ok := cond.(*ssa.Call)
			if !ok || truth || calleeQ(&ch.Call) != "(*github.com/spf13/pflag.FlagSet).Changed" {
				continue
			}
			if s, ok := constStr(ch.Call.Args[1]); ok {
				guards[s] = true
			}
		}
		// `if !anyChanged(flags, "a", "b", …)`: a loop over a literal list of names that
		// leaves as soon as one of them was given; the read sits behind the loop's
		// normal exit, so none of the listed names was given
		for _, l := range loopsOf(mainImpl) {
			if l.Blocks[call.Block()] {
				continue
			}
			var exit *ssa.BasicBlock
			for _, s := range l.Head.Succs {
				if !l.Blocks[s] {
					exit = s
				}
			}
			if exit == nil || !(exit == call.Block() || edgeDominates(l.Head, exit, call.Block())) {
				continue
			}
			// every iteration tests Changed(element) and leaves the loop when it is true
			var names []string
			okLoop := false
			for b := range l.Blocks {
				iff, ok := b.Instrs[len(b.Instrs)-1].(*ssa.If)
				if !ok || b == l.Head {
					continue
				}
				cond, truth := normCond(iff.Cond, true)
				ch, ok := cond.(*ssa.Call)
				if !ok || calleeQ(&ch.Call) != "(*github.com/spf13/pflag.FlagSet).Changed" {
					continue
				}
				given := b.Succs[0]
				if !truth {
					given = b.Succs[1]
				}
				if l.Blocks[given] {
					continue // Changed==true stays in the loop: not an any-loop
				}
				// the tested name is the current element of a literal list
				u, ok := c.resolve(ch.Call.Args[1]).(*ssa.UnOp)
				if !ok {
					continue
				}
				ia, ok := u.X.(*ssa.IndexAddr)
				if !ok {
					continue
				}
				// the index is the loop counter (phi of the head, or phi+1 in a rotated range loop)
				idx := ia.Index
				if bo, isBO := idx.(*ssa.BinOp); isBO && bo.Op == token.ADD {
					idx = bo.X
				}
				if phi, isPhi := idx.(*ssa.Phi); !isPhi || phi.Block() != l.Head {
					continue
				}
				if elems, ok := c.stringElems(c.resolve(ia.X)); ok {
					names, okLoop = elems, true
				}
			}
			if okLoop {
				for _, n := range names {
					guards[n] = true
				}
			}
		}
		// nothing else is conjoined with the Changed() tests: a further condition in
		// the same guard (one whose other branch skips the read exactly as a given
		// option does) makes the configuration ineffective in some runs
		skipOf := func(f condFact) *ssa.BasicBlock {
			b := f.If.Block()
			t := b.Succs[1]
			if !f.Truth {
				t = b.Succs[0]
			}
			for steps := 0; steps < 4 && len(t.Instrs) == 1 && len(t.Succs) == 1; steps++ {
				t = t.Succs[0]
			}
			return t
		}
		skips := map[*ssa.BasicBlock]bool{}
		for _, f := range factsAt(call.Block()) {
			cond, truth := normCond(f.Cond, f.Truth)
			if ch, ok := cond.(*ssa.Call); ok && !truth && calleeQ(&ch.Call) == "(*github.com/spf13/pflag.FlagSet).Changed" {
				skips[skipOf(f)] = true
			}
		}
		for _, f := range factsAt(call.Block()) {
			cond, _ := normCond(f.Cond, f.Truth)
			if ch, ok := cond.(*ssa.Call); ok && calleeQ(&ch.Call) == "(*github.com/spf13/pflag.FlagSet).Changed" {
				continue
			}
			if skips[skipOf(f)] {
				c.violate("C14.families", key+":only-if-not-given", f.If.Pos(), name, fmt.Sprintf("gitconfig key %s is read only under a further condition (`%s`) besides 'no option of its family was given': in the other case the configured value has no effect although no option overrides it", key, strings.TrimSpace(cond.String())))
			}
		}
		var missing []string
		for _, f := range fam {
			if !guards[f] {
				missing = append(missing, f)
			}
		}
		if len(missing) == 0 {
			c.hold("C14.families", key, call.Pos(), fmt.Sprintf("read only when none of %v was given on the command line", fam))
			c.sample(map[string]interface{}{"key": key, "variable": varKeyName(target), "family": fam})
		} else {
			c.violate("C14.families", key, call.Pos(), name, fmt.Sprintf("gitconfig key %s is consulted although option(s) %v of the same family (%v, all writing variable %s) may have been given: the configuration would override the command line", key, missing, fam, varKeyName(target)))
		}
	})
	if n < 4 {
		c.violate("C14.families", "floor", mainImpl.Pos(), name, fmt.Sprintf("only %d sizer.* gitconfig reads found (threshold, names, jsonVersion, progress expected)", n))
	}
}

func ruleC14Constants(c *Ctx) {
	regs := map[string]*flagReg{}
	for _, r := range c.flagRegs() {
		regs[r.Name] = r
	}
	newTFV := c.fn("/sizes", "", "NewThresholdFlagValue")
	want := map[string]float64{"verbose": 0, "no-verbose": 1, "critical": 30}
	var thresholdCell interface{}
	for _, n := range []string{"verbose", "no-verbose", "critical"} {
		r := regs[n]
		if r == nil {
			c.violate("C14.constants", "--"+n, token.NoPos, "", "option --"+n+" is not registered")
			continue
		}
		call, ok := itemValue(r.ValueArg).(*ssa.Call)
		if !ok || newTFV == nil || call.Call.StaticCallee() != newTFV {
			c.undecided("C14.constants", "--"+n, r.Call.Pos(), fnName(r.Call.Parent()), "--"+n+" is not built with sizes.NewThresholdFlagValue")
			continue
		}
		k, ok := constFloat(call.Call.Args[1])
		cell := c.varKey(call.Call.Args[0])
		if thresholdCell == nil {
			thresholdCell = cell
		}
		switch {
		case !ok || k != want[n]:
			c.violate("C14.constants", "--"+n, r.Call.Pos(), fnName(r.Call.Parent()), fmt.Sprintf("--%s sets the threshold to %v, documented as equivalent to --threshold=%v", n, k, want[n]))
		case cell != thresholdCell:
			c.violate("C14.constants", "--"+n+":variable", r.Call.Pos(), fnName(r.Call.Parent()), "--"+n+" does not write the same variable as the other threshold options")
		default:
			c.hold("C14.constants", "--"+n, r.Call.Pos(), fmt.Sprintf("sets the shared threshold variable to %v", k))
		}
	}
	if r := regs["threshold"]; r == nil {
		c.violate("C14.constants", "--threshold", token.NoPos, "", "option --threshold is not registered")
	} else if cells := c.cellsOfFlagValue(r.ValueArg, 0); len(cells) != 1 || (thresholdCell != nil && cells[0] != thresholdCell) {
		c.violate("C14.constants", "--threshold:variable", r.Call.Pos(), fnName(r.Call.Parent()), "--threshold does not write the variable that --verbose/--no-verbose/--critical write: the last option given would not win")
	} else {
		c.hold("C14.constants", "--threshold", r.Call.Pos(), "writes the shared threshold variable")
		// default 1
		for _, st := range c.storesToVar(cells[0]) {
			if k, ok := constFloat(st.Val); ok && st.Parent() == r.Call.Parent() {
				if k == 1 {
					c.hold("C14.constants", "default", st.Pos(), "default threshold 1")
				} else {
					c.violate("C14.constants", "default", st.Pos(), fnName(st.Parent()), fmt.Sprintf("the default threshold is %v, documented as 1", k))
				}
			}
		}
	}
	if r := regs["verbose"]; r != nil && r.Short != "v" {
		c.violate("C14.constants", "-v", r.Call.Pos(), fnName(r.Call.Parent()), "-v is not the short form of --verbose")
	}
	if r := regs["json"]; r == nil || r.Short != "j" {
		c.violate("C14.constants", "-j", token.NoPos, "", "-j is not the short form of --json")
	} else {
		c.hold("C14.constants", "-j", r.Call.Pos(), "-j is the short form of --json")
	}
	// thresholdFlagValue.Set: true -> the constant, false -> 1
	if tfv := c.namedType("/sizes", "thresholdFlagValue"); tfv != nil {
		if set := c.methodOf(types.NewPointer(tfv), "Set"); set != nil {
			okTrue, okFalse := false, false
			judge := func(val ssa.Value, facts []condFact) {
				var truthKnown, truth bool
				for _, f := range facts {
					cond, t := normCond(f.Cond, f.Truth)
					if ex, ok := cond.(*ssa.Extract); ok && ex.Index == 0 {
						if call, ok := ex.Tuple.(*ssa.Call); ok && calleeQ(&call.Call) == "strconv.ParseBool" {
							truthKnown, truth = true, t
						}
					}
				}
				if !truthKnown {
					return
				}
				if truth {
					if _, p := c.fieldPath(c.resolve(val)); len(p) == 1 {
						okTrue = true
					}
				} else if k, ok := constFloat(val); ok && k == 1 {
					okFalse = true
				}
			}
			allInstrs(set, func(in ssa.Instruction) {
				st, ok := in.(*ssa.Store)
				if !ok || !isNamed(st.Val.Type(), modPath+"/sizes", "Threshold") {
					return
				}
				if phi, isPhi := st.Val.(*ssa.Phi); isPhi {
					// `v := 1; if value { v = x.value }; *target = v`
					for i, e := range phi.Edges {
						judge(e, factsOnEdge(phi.Block().Preds[i], phi.Block()))
					}
					return
				}
				judge(st.Val, factsAt(st.Block()))
			})
			// "the last one given wins": every successful Set writes the shared variable
			succ := map[*ssa.BasicBlock]bool{}
			for _, ret := range returnsOf(set) {
				for _, rv := range c.resultValues(ret, 0) {
					if isNilConst(rv) {
						succ[ret.Block()] = true
					}
				}
			}
			ec := c.newEventCounter(func(in ssa.Instruction) int {
				if st, ok := in.(*ssa.Store); ok && isNamed(st.Val.Type(), modPath+"/sizes", "Threshold") {
					if _, isField := st.Addr.(*ssa.FieldAddr); !isField {
						return 1
					}
				}
				return 0
			}, false)
			if len(succ) > 0 {
				if r := ec.region(set.Blocks[0], 0, succ, nil); r.Min == 1 && r.Max == 1 {
					c.hold("C14.constants", "bool-value:every-set", set.Pos(), "every successful Set writes the shared threshold variable exactly once")
				} else {
					c.violate("C14.constants", "bool-value:every-set", set.Pos(), fnName(set), fmt.Sprintf("a successful Set writes the shared threshold variable %s times (must be exactly once): a repeated option would not override the options given before it, so the last one given would not win", rangeStr(r)))
				}
			}
			if okTrue && okFalse {
				c.hold("C14.constants", "bool-value", set.Pos(), "`--X=true` sets X's constant, `--X=false` sets 1")
			} else {
				c.violate("C14.constants", "bool-value", set.Pos(), fnName(set), fmt.Sprintf("the boolean threshold options do not set (their constant | 1) for (true | false): true ok=%v false ok=%v", okTrue, okFalse))
			}
		}
	}
	// the value options themselves: a successful Set stores through the receiver exactly once
	for _, tn := range []string{"Threshold", "NameStyle"} {
		nt := c.namedType("/sizes", tn)
		if nt == nil {
			continue
		}
		set := c.methodOf(types.NewPointer(nt), "Set")
		if set == nil || len(set.Params) == 0 {
			continue
		}
		succ := map[*ssa.BasicBlock]bool{}
		for _, ret := range returnsOf(set) {
			for _, rv := range c.resultValues(ret, 0) {
				if isNilConst(rv) {
					succ[ret.Block()] = true
				}
			}
		}
		recv := set.Params[0]
		ec := c.newEventCounter(func(in ssa.Instruction) int {
			if st, ok := in.(*ssa.Store); ok && c.resolve(st.Addr) == ssa.Value(recv) {
				return 1
			}
			return 0
		}, false)
		if len(succ) == 0 {
			continue
		}
		if r := ec.region(set.Blocks[0], 0, succ, nil); r.Min == 1 && r.Max == 1 {
			c.hold("C14.constants", "set-writes:"+tn, set.Pos(), "every successful Set stores the parsed value through the receiver exactly once")
		} else {
			c.violate("C14.constants", "set-writes:"+tn, set.Pos(), fnName(set), fmt.Sprintf("a successful Set stores through the receiver %s times (must be exactly once): an accepted option or gitconfig value would have no effect", rangeStr(r)))
		}
	}
	// gitconfig values go through the same parsers as the options
	mainImpl := c.fn("", "", "mainImplementation")
	tset := c.fn("/sizes", "*Threshold", "Set")
	if mainImpl != nil && tset != nil {
		bitsOf := func(f *ssa.Function) int64 {
			var b int64 = -1
			allInstrs(f, func(in ssa.Instruction) {
				if call, ok := in.(*ssa.Call); ok && calleeQ(&call.Call) == "strconv.ParseFloat" {
					b, _ = constInt(call.Call.Args[1])
				}
			})
			return b
		}
		if a, b := bitsOf(mainImpl), bitsOf(tset); a == b && a == 64 {
			c.hold("C14.constants", "threshold-parser", mainImpl.Pos(), "sizer.threshold and --threshold are both parsed with strconv.ParseFloat(…, 64)")
		} else {
			c.violate("C14.constants", "threshold-parser", mainImpl.Pos(), fnName(mainImpl), fmt.Sprintf("sizer.threshold is parsed with bit size %d, --threshold with %d", a, b))
		}
		nsSet := c.fn("/sizes", "*NameStyle", "Set")
		if nsSet != nil && len(callsTo(mainImpl, nsSet)) > 0 {
			c.hold("C14.constants", "names-parser", mainImpl.Pos(), "sizer.names goes through NameStyle.Set, the option's own parser")
		} else {
			c.violate("C14.constants", "names-parser", mainImpl.Pos(), fnName(mainImpl), "sizer.names is not parsed with NameStyle.Set")
		}
	}
}

func ruleC14Aliases(c *Ctx) {
	regexpFilter := c.fn("/git", "", "RegexpFilter")
	fvT := c.namedType("/internal/refopts", "filterValue")
	if fvT == nil || regexpFilter == nil {
		c.violate("C14.aliases", "filterValue", token.NoPos, "", "refopts.filterValue / git.RegexpFilter not found")
		return
	}
	set := c.methodOf(types.NewPointer(fvT), "Set")
	if set == nil {
		c.violate("C14.aliases", "filterValue.Set", token.NoPos, "", "refopts.filterValue has no Set method")
		return
	}
	name := fnName(set)
	// the regexp bit selects RegexpFilter(pattern), else the flexible interpreter; both feed the same Combine
	var direct *ssa.Call
	for _, call := range callsTo(set, regexpFilter) {
		direct = call
	}
	okBit := direct != nil && guardedBy(direct.Block(), func(cond ssa.Value, truth bool) bool {
		_, p := c.fieldPath(c.resolve(cond))
		return truth && len(p) == 1 && isBoolType(cond.Type())
	})
	combines := 0
	allInstrs(set, func(in ssa.Instruction) {
		if call, ok := in.(*ssa.Call); ok && call.Call.IsInvoke() && mname(call.Call.Method) == "Combine" {
			combines++
		}
	})
	if okBit && combines == 1 {
		c.hold("C14.aliases", "regexp-alias", direct.Pos(), "--X-regexp R compiles R with git.RegexpFilter and is folded by the single Combine that also folds --X /R/")
	} else {
		c.violate("C14.aliases", "regexp-alias", set.Pos(), name, fmt.Sprintf("--include-regexp/--exclude-regexp do not reach git.RegexpFilter under the regexp bit and the shared Combine (bit guard ok=%v, Combine sites=%d)", okBit, combines))
	}
	// under the regexp bit nothing but RegexpFilter builds the filter (no "literal pattern" shortcut
	// through the prefix filter: /R/ is a whole-name match, a prefix is not)
	allInstrs(set, func(in ssa.Instruction) {
		call, ok := in.(*ssa.Call)
		if !ok || call == direct {
			return
		}
		cal := call.Call.StaticCallee()
		if cal == nil || !c.inRuleScope(cal) || cal.Signature.Recv() != nil || pkgOf(cal) != modPath+"/git" {
			return
		}
		res := cal.Signature.Results()
		if res.Len() == 0 || !isNamed(res.At(0).Type(), modPath+"/git", "ReferenceFilter") {
			return
		}
		underBit := guardedBy(call.Block(), func(cond ssa.Value, truth bool) bool {
			_, p := c.fieldPath(c.resolve(cond))
			return truth && len(p) == 1 && isBoolType(cond.Type())
		})
		if underBit {
			c.violate("C14.aliases", "regexp-alias:other-constructor", call.Pos(), name, "under the regexp bit the filter is (also) built with "+fnName(cal)+": --include-regexp R and --include /R/ would select different references")
		}
	})
	// pattern passed to RegexpFilter in both routes is the user's text: direct = the option argument
	if direct != nil {
		if _, isParam := c.resolve(direct.Call.Args[0]).(*ssa.Parameter); !isParam {
			if phi, ok := direct.Call.Args[0].(*ssa.Phi); ok {
				hasParam := false
				for _, e := range phi.Edges {
					if _, ok := c.resolve(e).(*ssa.Parameter); ok {
						hasParam = true
					}
				}
				if !hasParam {
					c.violate("C14.aliases", "regexp-alias:pattern", direct.Pos(), name, "the regexp compiled for --X-regexp is not the option's argument")
				}
			}
		}
	}
	// --refgroup G == --include @G
	fgT := c.namedType("/internal/refopts", "filterGroupValue")
	if fgT == nil {
		c.violate("C14.aliases", "refgroup-alias", token.NoPos, "", "refopts.filterGroupValue not found")
		return
	}
	gset := c.methodOf(types.NewPointer(fgT), "Set")
	if gset == nil {
		return
	}
	okComb, okFilter := false, false
	allInstrs(gset, func(in ssa.Instruction) {
		call, ok := in.(*ssa.Call)
		if !ok {
			return
		}
		cal := call.Call.StaticCallee()
		if cal == nil || cal.Name() != "Combine" {
			return
		}
		if u, ok := call.Call.Args[0].(*ssa.UnOp); ok {
			if g, ok := u.X.(*ssa.Global); ok && g.Name() == "Include" {
				okComb = true
			}
		}
		if mi, ok := call.Call.Args[2].(*ssa.MakeInterface); ok && isNamed(mi.X.Type(), modPath+"/internal/refopts", "refGroupFilter") {
			okFilter = true
		}
	})
	// which groups it accepts: exactly the defined ones, as @G does (a group
	// without rules of its own is the union of its subgroups, not undefined)
	badCond := ""
	for _, b := range gset.Blocks {
		if len(b.Instrs) == 0 {
			continue
		}
		iff, ok := b.Instrs[len(b.Instrs)-1].(*ssa.If)
		if !ok {
			continue
		}
		cond, _ := normCond(iff.Cond, true)
		switch x := cond.(type) {
		case *ssa.Extract:
			if _, isLookup := x.Tuple.(*ssa.Lookup); isLookup && x.Index == 1 {
				continue
			}
		case *ssa.BinOp:
			if x.Op == token.EQL || x.Op == token.NEQ {
				if s, isStr := constStr(x.Y); isStr && s == "" {
					continue
				}
				// the looked-up pointer itself (never nil in the map)
				if isNilConst(x.Y) {
					if ex, isEx := x.X.(*ssa.Extract); isEx {
						if _, isLookup := ex.Tuple.(*ssa.Lookup); isLookup && ex.Index == 0 {
							continue
						}
					}
				}
			}
		}
		badCond = strings.TrimSpace(cond.String())
		c.violate("C14.aliases", "refgroup-alias:defined", iff.Pos(), fnName(gset), "--refgroup G accepts or rejects G on a condition other than G being defined (`"+badCond+"`), which --include @G does not test: the two spellings differ for such groups")
	}
	if badCond == "" {
		c.hold("C14.aliases", "refgroup-alias:defined", gset.Pos(), "--refgroup G fails only for an undefined (or empty) G")
	}
	if okComb && okFilter {
		c.hold("C14.aliases", "refgroup-alias", gset.Pos(), "--refgroup G folds refGroupFilter{G} with Include, as --include @G does")
	} else {
		c.violate("C14.aliases", "refgroup-alias", gset.Pos(), fnName(gset), fmt.Sprintf("--refgroup does not combine a refgroup filter with Include (Include=%v, refGroupFilter=%v)", okComb, okFilter))
	}
}

// ---------------- C19 ----------------

func ruleC19JSON(c *Ctx) {
	n := 0
	for _, f := range c.ModFns {
		if f.Name() != "MarshalJSON" || f.Parent() != nil {
			continue
		}
		n++
		name := fnName(f)
		good := true
		why := ""
		for _, ret := range returnsOf(f) {
			for _, v := range c.resultValues(ret, 0) {
				v = c.resolve(v)
				switch x := v.(type) {
				case *ssa.Extract:
					if call, ok := x.Tuple.(*ssa.Call); ok && strings.HasPrefix(calleeQ(&call.Call), "encoding/json.Marshal") {
						continue
					}
					good, why = false, "returns the result of a call other than encoding/json.Marshal*"
				case *ssa.MakeSlice:
					// OID: bytes built from hex.Encode and constant quotes only
					okHex := false
					bad := false
					for _, r := range *x.Referrers() {
						switch y := r.(type) {
						case *ssa.IndexAddr:
							for _, st := range storesTo(y) {
								if k, ok := constInt(st.Val); !ok || k != '"' {
									bad = true
								}
							}
						case *ssa.Slice:
							for _, rr := range *y.Referrers() {
								if call, ok := rr.(*ssa.Call); ok && calleeQ(&call.Call) == "encoding/hex.Encode" {
									okHex = true
								}
							}
						}
					}
					if okHex && !bad {
						c.exception("C19.json", name, f.Pos(), "bytes are `\"` + hex.Encode output + `\"`; hex digits need no escaping")
						continue
					}
					good, why = false, "builds JSON bytes by hand from something other than hex digits and constant quotes"
				default:
					if isNilConst(v) {
						continue
					}
					good, why = false, fmt.Sprintf("returns hand-built bytes (%T)", v)
				}
			}
		}
		if good && c.seen("C19.json", name) == nil {
			c.hold("C19.json", name, f.Pos(), "returns the bytes produced by encoding/json")
		} else if !good {
			c.violate("C19.json", name, f.Pos(), name, "MarshalJSON "+why+": names with quotes, backslashes or control characters would produce invalid JSON")
		}
	}
	if n < 3 {
		c.violate("C19.json", "floor", token.NoPos, "", fmt.Sprintf("only %d MarshalJSON methods found", n))
	}
	// the bytes written for --json are the unmodified MarshalIndent / JSON() result
	mainImpl := c.fn("", "", "mainImplementation")
	if mainImpl == nil {
		return
	}
	found := false
	allInstrs(mainImpl, func(in ssa.Instruction) {
		call, ok := in.(*ssa.Call)
		if !ok || !strings.HasPrefix(calleeQ(&call.Call), "fmt.Fprint") && !strings.Contains(calleeQ(&call.Call), ".Write") {
			return
		}
		args := call.Call.Args
		var vals []ssa.Value
		if strings.HasPrefix(calleeQ(&call.Call), "fmt.Fprint") {
			vals = c.sliceElemValues(args[len(args)-1])
		} else {
			vals = args[1:]
		}
		for _, v := range vals {
			if mi, ok := v.(*ssa.MakeInterface); ok {
				v = mi.X
			}
			if _, isBytes := v.Type().Underlying().(*types.Slice); !isBytes {
				continue
			}
			// every definition of the byte slice: Extract#0 of MarshalIndent or of (*HistorySize).JSON
			okAll := true
			seen := map[ssa.Value]bool{}
			var walk func(x ssa.Value)
			walk = func(x ssa.Value) {
				if seen[x] {
					return
				}
				seen[x] = true
				x = c.resolve(x)
				switch y := x.(type) {
				case *ssa.Phi:
					for _, e := range y.Edges {
						walk(e)
					}
				case *ssa.UnOp:
					if cell := c.cellOf(y.X); cell != nil {
						for _, st := range c.cellStores(cell) {
							walk(st.Val)
						}
						return
					}
					okAll = false
				case *ssa.Extract:
					call, ok := y.Tuple.(*ssa.Call)
					if !ok {
						okAll = false
						return
					}
					q := calleeQ(&call.Call)
					if q == "encoding/json.MarshalIndent" || q == "encoding/json.Marshal" {
						// what is marshalled is a typed value of the module, not a
						// generic map or slice (through which every number becomes a
						// float64 and 64-bit counters above 2^53 lose their digits)
						typed := false
						if mi, isMI := call.Call.Args[0].(*ssa.MakeInterface); isMI {
							if n := namedOf(mi.X.Type()); n != nil && n.Obj().Pkg() != nil && strings.HasPrefix(n.Obj().Pkg().Path(), modPath) {
								typed = true
							}
						}
						if typed {
							c.hold("C19.json", "output-typed", call.Pos(), "the report is marshalled from its own typed value")
						} else {
							c.violate("C19.json", "output-typed", call.Pos(), fnName(mainImpl), "the JSON written is marshalled from a generic value (map/slice/interface) instead of the report's typed value: numbers pass through float64, so a 64-bit counter above 2^53 (or a saturated one) is not emitted with its exact digits")
						}
						return
					}
					if q == modQ("/sizes", "*HistorySize", "JSON") {
						return
					}
					okAll = false
				case *ssa.Const:
				default:
					okAll = false
				}
			}
			walk(v)
			found = true
			if okAll {
				c.hold("C19.json", "output-bytes", call.Pos(), "the --json bytes are the unmodified result of encoding/json")
			} else {
				c.violate("C19.json", "output-bytes", call.Pos(), fnName(mainImpl), "the bytes written for --json are modified after encoding/json produced them")
			}
		}
	})
	if !found {
		c.violate("C19.json", "output-bytes", mainImpl.Pos(), fnName(mainImpl), "no JSON bytes are written")
	}
	// (*HistorySize).JSON returns MarshalIndent's bytes
	if j := c.fn("/sizes", "*HistorySize", "JSON"); j != nil {
		ok := true
		for _, ret := range returnsOf(j) {
			for _, v := range c.resultValues(ret, 0) {
				ex, isEx := c.resolve(v).(*ssa.Extract)
				if !isEx {
					ok = false
					continue
				}
				if call, isCall := ex.Tuple.(*ssa.Call); !isCall || !strings.HasPrefix(calleeQ(&call.Call), "encoding/json.Marshal") {
					ok = false
				}
			}
		}
		if ok {
			c.hold("C19.json", "v2-bytes", j.Pos(), "JSON v2 bytes come straight from json.MarshalIndent")
		} else {
			c.violate("C19.json", "v2-bytes", j.Pos(), fnName(j), "JSON v2 bytes are post-processed after encoding/json")
		}
	}
}

func ruleC19Footnotes(c *Ctx) {
	ft := c.namedType("/sizes", "Footnotes")
	if ft == nil {
		c.violate("C19.footnotes", "Footnotes", token.NoPos, "", "sizes.Footnotes not found")
		return
	}
	cc := c.methodOf(types.NewPointer(ft), "CreateCitation")
	str := c.methodOf(types.NewPointer(ft), "String")
	if cc == nil || str == nil {
		c.violate("C19.footnotes", "methods", token.NoPos, "", "Footnotes.CreateCitation / String not found")
		return
	}
	name := fnName(cc)
	var lookup *ssa.Lookup
	var mapUpd *ssa.MapUpdate
	var app *ssa.Call
	allInstrs(cc, func(in ssa.Instruction) {
		switch x := in.(type) {
		case *ssa.Lookup:
			if x.CommaOk {
				lookup = x
			}
		case *ssa.MapUpdate:
			mapUpd = x
		case *ssa.Call:
			if isBuiltin(&x.Call, "append") {
				app = x
			}
		}
	})
	if lookup == nil || mapUpd == nil || app == nil {
		c.violate("C19.footnotes", "shape", cc.Pos(), name, "CreateCitation no longer looks the text up, appends it and records its number")
		return
	}
	unseen := func(b *ssa.BasicBlock) bool {
		return guardedBy(b, func(cond ssa.Value, truth bool) bool {
			ex, ok := cond.(*ssa.Extract)
			return ok && !truth && ex.Index == 1 && ex.Tuple == ssa.Value(lookup)
		})
	}
	if unseen(mapUpd.Block()) && unseen(app.Block()) {
		c.hold("C19.footnotes", "same-branch", mapUpd.Pos(), "number assignment and append are both in the unseen-text branch")
	} else {
		c.violate("C19.footnotes", "same-branch", mapUpd.Pos(), name, "the footnote's number and its append are not both done exactly when the text is new: identical texts would get two footnotes or a citation without a footnote")
	}
	// lookup key, map key and appended text are the parameter
	txt := cc.Params[1]
	okKeys := c.resolve(lookup.Index) == ssa.Value(txt) && c.resolve(mapUpd.Key) == ssa.Value(txt)
	okApp := false
	for _, el := range c.sliceElemValues(app.Call.Args[1]) {
		if c.resolve(el) == ssa.Value(txt) {
			okApp = true
		}
	}
	if okKeys && okApp {
		c.hold("C19.footnotes", "dedup-key", lookup.Pos(), "looked up, recorded and appended under the footnote text itself")
	} else {
		c.violate("C19.footnotes", "dedup-key", lookup.Pos(), name, "the text looked up, the text recorded and the text appended are not all the footnote text")
	}
	// number = len(X) + 1 with X the index map, or the footnote list before the append
	okNum := false
	if bo, ok := c.resolve(mapUpd.Value).(*ssa.BinOp); ok && bo.Op == token.ADD {
		one, other := bo.Y, bo.X
		if k, isK := constInt(bo.X); isK && k == 1 {
			one, other = bo.X, bo.Y // 1 + len(…)
		}
		if k, ok := constInt(one); ok && k == 1 {
			if l, ok := other.(*ssa.Call); ok && isBuiltin(&l.Call, "len") {
				arg := l.Call.Args[0]
				if _, p := c.fieldPath(c.resolve(arg)); len(p) == 1 {
					_, isMap := arg.Type().Underlying().(*types.Map)
					_, isSlice := arg.Type().Underlying().(*types.Slice)
					if isMap || (isSlice && instrDominates(l, app)) {
						okNum = true
					}
				}
			}
		}
	}
	// … or the length of the list right after this footnote was appended
	if l, ok := c.resolve(mapUpd.Value).(*ssa.Call); ok && isBuiltin(&l.Call, "len") {
		arg := l.Call.Args[0]
		if arg == ssa.Value(app) {
			okNum = true
		}
		// a reload of the field the append result was stored to
		if ld, isLoad := arg.(*ssa.UnOp); isLoad && ld.Op == token.MUL && isSliceType(arg.Type()) {
			if lfa, isFA := ld.X.(*ssa.FieldAddr); isFA {
				for _, r := range *app.Referrers() {
					if st, isSt := r.(*ssa.Store); isSt && st.Val == ssa.Value(app) && instrDominates(st, l) {
						if sfa, isFA2 := st.Addr.(*ssa.FieldAddr); isFA2 && sfa.X == lfa.X && sfa.Field == lfa.Field && st.Block() == l.Block() {
							okNum = true
						}
					}
				}
			}
		}
	}
	if okNum {
		c.hold("C19.footnotes", "number", mapUpd.Pos(), "new number = number of footnotes so far + 1")
	} else {
		c.violate("C19.footnotes", "number", mapUpd.Pos(), name, "a new footnote is not numbered (count of footnotes so far) + 1: citations would not match the position at which the footnote is printed")
	}
	// the citation returned is built from that number (new) or the looked-up one (seen)
	okCite := false
	isNumberPhi := func(v ssa.Value) bool {
		phi, ok := v.(*ssa.Phi)
		if !ok {
			return false
		}
		hasNew, hasOld := false, false
		for _, e := range phi.Edges {
			if c.resolve(e) == c.resolve(mapUpd.Value) {
				hasNew = true
			}
			if ex, ok := e.(*ssa.Extract); ok && ex.Tuple == ssa.Value(lookup) && ex.Index == 0 {
				hasOld = true
			}
		}
		return hasNew && hasOld
	}
	// the returned text is computed from that number: fmt.Sprintf("[%d]", n),
	// "[" + strconv.Itoa(n) + "]", a module helper given n, ...
	var fromNumber func(v ssa.Value, depth int) bool
	fromNumber = func(v ssa.Value, depth int) bool {
		if depth > 8 {
			return false
		}
		if isNumberPhi(v) {
			return true
		}
		v = c.resolve(v)
		if isNumberPhi(v) {
			return true
		}
		switch x := v.(type) {
		case *ssa.BinOp:
			return fromNumber(x.X, depth+1) || fromNumber(x.Y, depth+1)
		case *ssa.Convert:
			return fromNumber(x.X, depth+1)
		case *ssa.ChangeType:
			return fromNumber(x.X, depth+1)
		case *ssa.MakeInterface:
			return fromNumber(x.X, depth+1)
		case *ssa.Phi:
			for _, e := range x.Edges {
				if fromNumber(e, depth+1) {
					return true
				}
			}
		case *ssa.Call:
			for _, a := range x.Call.Args {
				if fromNumber(a, depth+1) {
					return true
				}
				for _, el := range c.sliceElemValues(a) {
					if el != nil && fromNumber(el, depth+1) {
						return true
					}
				}
			}
		}
		return false
	}
	for _, ret := range returnsOf(cc) {
		for _, v := range c.resultValues(ret, 0) {
			if fromNumber(v, 0) {
				okCite = true
			}
		}
	}
	if !okCite {
		// one return per case: the citation of a known footnote is built from
		// the number looked up, that of a new one from the number recorded
		isNumberPhi = func(v ssa.Value) bool {
			if ex, ok := v.(*ssa.Extract); ok && ex.Tuple == ssa.Value(lookup) && ex.Index == 0 {
				return true
			}
			return c.resolve(v) == c.resolve(mapUpd.Value)
		}
		all, n := true, 0
		for _, ret := range returnsOf(cc) {
			for _, v := range c.resultValues(ret, 0) {
				if s, isConst := constStr(v); isConst && s == "" {
					continue
				}
				n++
				if !fromNumber(v, 0) {
					all = false
				}
			}
		}
		okCite = all && n >= 2
	}
	if okCite {
		c.hold("C19.footnotes", "citation-number", cc.Pos(), "the citation carries the recorded number (old) or the new one")
	} else {
		c.violate("C19.footnotes", "citation-number", cc.Pos(), name, "the citation text is not built from the number recorded for this footnote text")
	}
	// empty text -> no citation
	okEmpty := false
	for _, ret := range returnsOf(cc) {
		if s, ok := constStr(ret.Results[0]); ok && s == "" {
			if guardedBy(ret.Block(), func(cond ssa.Value, truth bool) bool {
				cmp, ok := isCmp(cond, token.EQL, token.NEQ)
				if !ok || (cmp.Op == token.EQL) != truth {
					return false
				}
				s2, ok := constStr(cmp.Y)
				return ok && s2 == "" && c.resolve(cmp.X) == ssa.Value(txt)
			}) {
				okEmpty = true
			}
		}
	}
	if okEmpty {
		c.hold("C19.footnotes", "empty", cc.Pos(), "an empty text yields no citation and no footnote")
	} else {
		c.violate("C19.footnotes", "empty", cc.Pos(), name, "an empty footnote text is not answered with an empty citation")
	}
	// String: numbering by position (index+1 formatted directly or through a module helper)
	okPos := false
	isPosPlusOne := func(v ssa.Value) bool {
		bo, ok := v.(*ssa.BinOp)
		return ok && bo.Op == token.ADD
	}
	for _, l := range loopsOf(str) {
		for b := range l.Blocks {
			for _, in := range b.Instrs {
				call, ok := in.(*ssa.Call)
				if !ok {
					continue
				}
				if calleeQ(&call.Call) == "fmt.Sprintf" || calleeQ(&call.Call) == "fmt.Fprintf" {
					for _, el := range c.sliceElemValues(call.Call.Args[len(call.Call.Args)-1]) {
						if mi, ok := el.(*ssa.MakeInterface); ok && isPosPlusOne(mi.X) {
							okPos = true
						}
					}
				} else if q := calleeQ(&call.Call); q == "strconv.Itoa" || q == "strconv.FormatInt" || q == "strconv.FormatUint" {
					a := call.Call.Args[0]
					if cv, isConv := a.(*ssa.Convert); isConv {
						a = cv.X
					}
					if isPosPlusOne(a) {
						okPos = true
					}
				} else if cal := call.Call.StaticCallee(); cal != nil && c.inRuleScope(cal) {
					for _, a := range call.Call.Args {
						if isPosPlusOne(a) {
							okPos = true
						}
					}
				}
			}
		}
	}
	if !okPos {
		// the loop counts the numbers and indexes the list with number-1
		for _, l := range loopsOf(str) {
			var formatted []ssa.Value
			var indexes []ssa.Value
			for b := range l.Blocks {
				for _, in := range b.Instrs {
					switch x := in.(type) {
					case *ssa.IndexAddr:
						indexes = append(indexes, x.Index)
					case *ssa.Call:
						q := calleeQ(&x.Call)
						switch {
						case q == "fmt.Sprintf" || q == "fmt.Fprintf":
							for _, el := range c.sliceElemValues(x.Call.Args[len(x.Call.Args)-1]) {
								if mi, ok := el.(*ssa.MakeInterface); ok {
									formatted = append(formatted, mi.X)
								}
							}
						case q == "strconv.Itoa" || q == "strconv.FormatInt" || q == "strconv.FormatUint":
							a := x.Call.Args[0]
							if cv, isConv := a.(*ssa.Convert); isConv {
								a = cv.X
							}
							formatted = append(formatted, a)
						}
					}
				}
			}
			for _, i := range indexes {
				bo, ok := i.(*ssa.BinOp)
				if !ok || bo.Op != token.SUB {
					continue
				}
				if k, isK := constInt(bo.Y); !isK || k != 1 {
					continue
				}
				for _, f := range formatted {
					if f == bo.X {
						okPos = true
					}
				}
			}
		}
	}
	if okPos {
		c.hold("C19.footnotes", "print-position", str.Pos(), "footnotes are printed in list order, numbered position+1")
	} else {
		c.violate("C19.footnotes", "print-position", str.Pos(), fnName(str), "footnotes are not numbered by their position in the list when printed")
	}
	// callers: only the row emitter, result reaches formatRow's citation column
	emit := c.fn("/sizes", "*item", "Emit")
	for _, ci := range c.Callers[cc] {
		if ci.Parent() != emit {
			c.violate("C19.footnotes", "caller:"+fnName(ci.Parent()), ci.Pos(), fnName(ci.Parent()), "a citation is created outside the emission of a table row: a footnote could be numbered without being cited")
			continue
		}
		call := ci.(*ssa.Call)
		reaches := false
		for _, r := range *call.Referrers() {
			if rc, ok := r.(*ssa.Call); ok && rc.Call.StaticCallee() != nil && refName(rc.Call.StaticCallee()) == "formatRow" {
				reaches = true
			}
		}
		if reaches {
			c.hold("C19.footnotes", "cited", ci.Pos(), "every citation created is printed in its row")
		} else {
			c.violate("C19.footnotes", "cited", ci.Pos(), fnName(ci.Parent()), "a created citation is not passed to the row formatter: a footnote without a citation")
		}
	}
}

func ruleC19UnboundedLines(c *Ctx) {
	n := 0
	for _, p := range c.pipelines() {
		carriesNames := false
		for _, st := range p.Stages {
			if st.Spawn != nil && (st.Spawn.sub() == "rev-list" || st.Spawn.sub() == "for-each-ref") {
				carriesNames = true
				continue
			}
			if !carriesNames || st.Spawn != nil {
				if st.Spawn != nil {
					carriesNames = false // a git command re-emits fixed-width lines
				}
				continue
			}
			n++
			key := fnName(p.Fn) + ":" + st.Name
			switch st.Kind {
			case "LinewiseFunction":
				c.violate("C19.unbounded-lines", key, st.Call.Pos(), fnName(p.Fn), "stage `"+st.Name+"` reads lines that carry path/reference names with pipe.LinewiseFunction, which fails on lines longer than 64 KiB: a long enough (nested) file name aborts the scan")
			case "ScannerFunction":
				if c.scannerHasLargeBuffer(st.Call) {
					c.hold("C19.unbounded-lines", key, st.Call.Pos(), "custom scanner with an explicit, effectively unbounded token limit")
				} else {
					c.violate("C19.unbounded-lines", key, st.Call.Pos(), fnName(p.Fn), "stage `"+st.Name+"` scans name-carrying lines with a bufio.Scanner whose token limit was not raised")
				}
			case "Function":
				if st.Fn != nil && c.usesCappedScanner(st.Fn) {
					c.violate("C19.unbounded-lines", key, st.Call.Pos(), fnName(p.Fn), "stage `"+st.Name+"` scans name-carrying lines with a default (64 KiB) bufio.Scanner")
				} else {
					c.hold("C19.unbounded-lines", key, st.Call.Pos(), "reads with a bufio.Reader (no line-length cap)")
				}
			default:
				c.undecided("C19.unbounded-lines", key, st.Call.Pos(), fnName(p.Fn), "unknown stage kind "+st.Kind)
			}
			carriesNames = false
		}
	}
	if n < 2 {
		c.violate("C19.unbounded-lines", "floor", token.NoPos, "", fmt.Sprintf("only %d line-oriented stages downstream of name-carrying git commands found (rev-list, for-each-ref expected)", n))
	}
}

func (c *Ctx) usesCappedScanner(f *ssa.Function) bool {
	newSc, buffer := false, false
	fns := append([]*ssa.Function{f}, f.AnonFuncs...)
	for _, g := range fns {
		allInstrs(g, func(in ssa.Instruction) {
			if call, ok := in.(*ssa.Call); ok {
				switch calleeQ(&call.Call) {
				case "bufio.NewScanner":
					newSc = true
				case "(*bufio.Scanner).Buffer":
					if k, ok := constInt(call.Call.Args[2]); ok && k >= 1<<30 {
						buffer = true
					}
				}
			}
		})
	}
	return newSc && !buffer
}

func (c *Ctx) scannerHasLargeBuffer(call *ssa.Call) bool {
	if len(call.Call.Args) < 2 {
		return false
	}
	v := call.Call.Args[1]
	if ct, ok := v.(*ssa.ChangeType); ok {
		v = ct.X
	}
	var f *ssa.Function
	switch x := v.(type) {
	case *ssa.MakeClosure:
		f = x.Fn.(*ssa.Function)
	case *ssa.Function:
		f = x
	}
	if f == nil {
		return false
	}
	return !c.usesCappedScanner(f) && func() bool {
		has := false
		allInstrs(f, func(in ssa.Instruction) {
			if call, ok := in.(*ssa.Call); ok && calleeQ(&call.Call) == "bufio.NewScanner" {
				has = true
			}
		})
		return has
	}()
}

var _ = sort.Strings

// ruleC14Flex: `--include @G` builds the same filter as `--refgroup G`
// (C06.flex, reported under C14's name).
func ruleC14Flex(c *Ctx) {
	c.RuleAlias = map[string]string{"C06.flex": "C14.aliases"}
	defer func() { c.RuleAlias = nil }()
	ruleC06Flex(c)
}

// ruleC14ConfigTypes: a gitconfig accessor that parses a boolean (integer)
// asks git for the canonical spelling with --bool (--int): git accepts
// yes/on/1/valueless keys that strconv does not, so without the option a
// valid sizer.progress would abort the run instead of acting like the flag.
func ruleC14ConfigTypes(c *Ctx) {
	nBool, nInt := 0, 0
	for _, s := range c.gitSites("config") {
		hasGet := false
		for _, a := range s.Argv {
			if a == "--get" {
				hasGet = true
			}
		}
		if !hasGet {
			continue
		}
		has := func(opts ...string) bool {
			for _, a := range s.Argv {
				for _, o := range opts {
					if a == o {
						return true
					}
				}
			}
			return false
		}
		parsesBool, parsesInt := false, false
		allInstrs(s.Fn, func(in ssa.Instruction) {
			if call, ok := in.(*ssa.Call); ok {
				switch calleeQ(&call.Call) {
				case "strconv.ParseBool":
					parsesBool = true
				case "strconv.Atoi", "strconv.ParseInt", "strconv.ParseUint":
					parsesInt = true
				}
			}
		})
		name := fnName(s.Fn)
		switch {
		case parsesBool:
			nBool++
			if has("--bool", "--type=bool") {
				c.hold("C14.config-types", name, s.Call.Pos(), "git config --get --bool: git canonicalises the value to true/false before strconv.ParseBool sees it")
			} else {
				c.violate("C14.config-types", name, s.Call.Pos(), name, "the value is parsed with strconv.ParseBool but git is not asked for the canonical form (--bool): yes/no/on/off or a valueless key, which git accepts, abort the run", "argv: "+strings.Join(s.Argv, " "))
			}
		case parsesInt:
			nInt++
			if has("--int", "--type=int") {
				c.hold("C14.config-types", name, s.Call.Pos(), "git config --get --int: git canonicalises the value (1k -> 1024) before strconv parses it")
			} else {
				c.violate("C14.config-types", name, s.Call.Pos(), name, "the value is parsed as an integer but git is not asked for the canonical form (--int)", "argv: "+strings.Join(s.Argv, " "))
			}
		default:
			if has("--bool", "--int", "--type=bool", "--type=int") {
				c.violate("C14.config-types", name, s.Call.Pos(), name, "a string value is read with a type option: git would rewrite or reject values the option accepts", "argv: "+strings.Join(s.Argv, " "))
			}
		}
	}
	if nBool < 1 || nInt < 1 {
		c.violate("C14.config-types", "floor", token.NoPos, "", fmt.Sprintf("expected a boolean and an integer gitconfig accessor (sizer.progress, sizer.jsonVersion), found %d and %d", nBool, nInt))
	}
}

// ruleC19NoCrash: a report is not well-formed if rendering it panics for
// some name: the index/slice/repeat obligations of the table renderer and
// the footnotes (C07.render-total's) under C19's name.
func ruleC19NoCrash(c *Ctx) {
	c.checkBounds("C19.no-crash", func(f *ssa.Function) bool {
		if pkgOf(f) != modPath+"/sizes" {
			return false
		}
		file := c.fileOf(f)
		// … and of the descriptions the footnotes are made of
		return file == "output.go" || file == "footnotes.go" || file == "path_resolver.go"
	}, boundsExceptions)
}
