package main

import (
	"go/token"
	"go/types"
	"strings"

	"golang.org/x/tools/go/ssa"
)

// Clauses added after the eleventh round of seeded changes.

func init() {
	register("C03", "", nil, ruleC03Argv)
	register("C05", "", nil, ruleC05Width)
	register("C06", "", nil, ruleC06Borrowed3)
	register("C07", "", nil, ruleC07EveryRefSent, ruleC07EveryEntryKept)
	register("C15", "", nil, ruleC15EveryEntryKept)
	register("C09", "", nil, ruleC09Borrowed3, ruleC09ListenerKept)
	register("C14", "", nil, ruleC14ConfigBeforeUse)
	register("C18", "", nil, ruleC18Borrowed2)
}

// skipPath: starting right after `from`, can the head of loop l be reached
// again without an instruction for which hit() holds having been executed?
// It returns the block from which the next iteration is entered, or nil.
func skipPath(l *loop, from ssa.Instruction, hit func(ssa.Instruction) bool) *ssa.BasicBlock {
	start := from.Block()
	past := false
	for _, in := range start.Instrs {
		if in == from {
			past = true
			continue
		}
		if past && hit(in) {
			return nil
		}
	}
	hasHit := func(b *ssa.BasicBlock) bool {
		for _, in := range b.Instrs {
			if hit(in) {
				return true
			}
		}
		return false
	}
	seen := map[*ssa.BasicBlock]bool{start: true}
	work := []*ssa.BasicBlock{start}
	for len(work) > 0 {
		b := work[len(work)-1]
		work = work[:len(work)-1]
		for _, s := range b.Succs {
			if s == l.Head {
				return b
			}
			if !l.Blocks[s] || seen[s] {
				continue
			}
			seen[s] = true
			if hasHit(s) {
				continue
			}
			work = append(work, s)
		}
	}
	return nil
}

// ruleC03Argv: parents are registered before children only if nothing makes
// rev-list answer in another order than the one asked for (C01.argv
// allow-list).
func ruleC03Argv(c *Ctx) {
	c.RuleAlias = map[string]string{"C01.argv": "C03.argv"}
	defer func() { c.RuleAlias = nil }()
	ruleC01Argv(c)
}

// ruleC05Width: no counter wraps: the count of still-unknown subtrees of a
// tree in flight is as wide as the number of entries a tree can have
// (C01.once, width clause).
func ruleC05Width(c *Ctx) {
	pendingWidth(c, "C05.discipline")
}

// ruleC06Borrowed3: @G selects by G's own rules only if G's section is read
// (C15.each-group, seen-key clause) and only G's section (C15.scope, key
// matcher clause).
func ruleC06Borrowed3(c *Ctx) {
	c.RuleAlias = map[string]string{"C15.each-group": "C06.refgroup", "C15.scope": "C06.refgroup"}
	c.KeyOnly = func(key string) bool { return key == "seen-key" || key == "key-matcher" }
	defer func() { c.RuleAlias = nil; c.KeyOnly = nil }()
	ruleC15EachGroup(c)
	ruleC15Scope(c)
}

// ruleC07EveryRefSent: the reference count is the number of references in
// the repository: every line of for-each-ref that parses is handed on.
func ruleC07EveryRefSent(c *Ctx) {
	const rule = "C07.count"
	pr := c.fn("/git", "", "ParseReference")
	if pr == nil {
		return
	}
	for _, ci := range c.Callers[pr] {
		call, ok := ci.(*ssa.Call)
		if !ok {
			continue
		}
		f := call.Parent()
		l := innermostLoop(loopsOf(f), call.Block())
		if l == nil {
			continue
		}
		isRefChan := func(t types.Type) bool {
			ch, ok := t.Underlying().(*types.Chan)
			return ok && isNamed(ch.Elem(), modPath+"/git", "Reference")
		}
		sends := 0
		hit := func(in ssa.Instruction) bool {
			switch x := in.(type) {
			case *ssa.Send:
				return isRefChan(x.Chan.Type())
			case *ssa.Select:
				for _, st := range x.States {
					if st.Dir == types.SendOnly && isRefChan(st.Chan.Type()) {
						return true
					}
				}
			}
			return false
		}
		for b := range l.Blocks {
			for _, in := range b.Instrs {
				if hit(in) {
					sends++
				}
			}
		}
		if sends == 0 {
			c.notDecided(rule, "every-ref-sent", call.Pos(), "the parsed references are not sent on a channel inside the reading loop")
			continue
		}
		// from the point at which the line was read, if that is in the loop
		// (a line may be dropped before it is even parsed)
		var from ssa.Instruction = call
		for b := range l.Blocks {
			for _, in := range b.Instrs {
				if rc, isCall := in.(*ssa.Call); isCall {
					switch calleeQ(&rc.Call) {
					case "(*bufio.Reader).ReadBytes", "(*bufio.Reader).ReadString", "(*bufio.Reader).ReadLine", "(*bufio.Reader).ReadSlice", "(*bufio.Scanner).Scan":
						if instrDominates(in, call) {
							from = in
						}
					}
				}
			}
		}
		if b := skipPath(l, from, hit); b != nil {
			c.violate(rule, "every-ref-sent", b.Instrs[len(b.Instrs)-1].Pos(), fnName(f), "a reference that for-each-ref listed and that parsed is not handed on (the next line is read instead): it is neither counted nor tallied under any group, 'Other' or 'Ignored'")
		} else {
			c.hold(rule, "every-ref-sent", call.Pos(), "every reference line that parses is sent on")
		}
	}
}

// everyEntryKept: every configuration entry under the prefix that was asked
// for is returned, in order, repeated entries included (rules are applied in
// order, so a repeated rule is not redundant).
func everyEntryKept(c *Ctx, rule string) {
	gc := c.fn("/git", "*Repository", "GetConfig")
	if gc == nil {
		return
	}
	isEntries := func(in ssa.Instruction) bool {
		call, ok := in.(*ssa.Call)
		if !ok || !isBuiltin(&call.Call, "append") {
			return false
		}
		sl, ok := call.Type().Underlying().(*types.Slice)
		return ok && isNamed(sl.Elem(), modPath+"/git", "ConfigEntry")
	}
	n := 0
	loops := loopsOf(gc)
	for _, l := range loops {
		var app ssa.Instruction
		for b := range l.Blocks {
			for _, in := range b.Instrs {
				if isEntries(in) {
					app = in
				}
			}
		}
		if app == nil || innermostLoop(loops, app.Block()) != l {
			continue
		}
		// the matcher's verdict
		var verdict *ssa.If
		for _, fct := range factsAt(app.Block()) {
			if !l.Blocks[fct.If.Block()] {
				continue
			}
			cond, _ := normCond(fct.Cond, fct.Truth)
			v := c.resolve(cond)
			if ex, ok := v.(*ssa.Extract); ok {
				v = ex.Tuple
			}
			if call, ok := v.(*ssa.Call); ok && call.Call.StaticCallee() != nil && c.inRuleScope(call.Call.StaticCallee()) && len(call.Call.Args) == 2 {
				verdict = fct.If
			}
		}
		if verdict == nil {
			continue
		}
		n++
		// from the edge on which the key matched
		var from ssa.Instruction
		for _, s := range verdict.Block().Succs {
			if edgeDominates(verdict.Block(), s, app.Block()) || s == app.Block() {
				from = s.Instrs[0]
			}
		}
		if from == nil {
			c.notDecided(rule, "every-entry-kept", app.Pos(), "the branch on which a key matched does not lead to the append by itself")
			continue
		}
		hit := isEntries
		skipped := isEntries(from) == false && skipPathFromBlockStart(l, from, hit)
		if skipped {
			c.violate(rule, "every-entry-kept", app.Pos(), fnName(gc), "an entry whose key matched the prefix can be left out of the result (the next entry is read instead): rules are applied in the order listed, so a dropped repetition changes which references a group matches")
		} else {
			c.hold(rule, "every-entry-kept", app.Pos(), "every entry whose key matches the prefix is returned")
		}
	}
	if n == 0 {
		c.notDecided(rule, "every-entry-kept", gc.Pos(), "no loop of GetConfig appends entries under the verdict of a key matcher")
	}
}

// skipPathFromBlockStart is skipPath with the first instruction of a block
// as the starting point (that instruction itself may be the hit).
func skipPathFromBlockStart(l *loop, first ssa.Instruction, hit func(ssa.Instruction) bool) bool {
	for _, in := range first.Block().Instrs {
		if hit(in) {
			return false
		}
	}
	return skipPath(l, first, hit) != nil
}

func ruleC07EveryEntryKept(c *Ctx) { everyEntryKept(c, "C07.hierarchy") }
func ruleC15EveryEntryKept(c *Ctx) { everyEntryKept(c, "C15.scope") }

// ruleC09Borrowed3: the maxima do not depend on the order in which trees are
// finalised only if every tree is compared with every maximum (C04.maxima:
// each update executes exactly once per recorded tree).
func ruleC09Borrowed3(c *Ctx) {
	c.RuleAlias = map[string]string{"C04.maxima": "C09.uncond"}
	defer func() { c.RuleAlias = nil }()
	ruleC04Maxima(c)
}

// ruleC09ListenerKept: whoever asks for a size that is not known yet is told
// when it is: on every path on which Require*Size answers "not known" the
// listener has been handed to the record, whether or not the record existed.
func ruleC09ListenerKept(c *Ctx) {
	const rule = "C09.pending"
	gt := c.namedType("/sizes", "Graph")
	if gt == nil {
		return
	}
	n := 0
	for _, f := range c.ModFns {
		if f.Signature.Recv() == nil || !isNamed(derefType(f.Signature.Recv().Type()), modPath+"/sizes", "Graph") || len(f.Blocks) == 0 {
			continue
		}
		res := f.Signature.Results()
		if res.Len() != 2 || !isBoolType(res.At(1).Type()) {
			continue
		}
		var listener *ssa.Parameter
		for _, p := range f.Params {
			if _, isFn := p.Type().Underlying().(*types.Signature); isFn {
				listener = p
			}
		}
		if listener == nil {
			continue
		}
		n++
		hit := func(in ssa.Instruction) bool {
			switch x := in.(type) {
			case *ssa.Call:
				for _, a := range x.Call.Args {
					if c.resolve(a) == ssa.Value(listener) {
						return true
					}
					for _, el := range c.sliceElemValues(a) {
						if el != nil && c.resolve(el) == ssa.Value(listener) {
							return true
						}
					}
				}
			case *ssa.Store:
				if c.resolve(x.Val) == ssa.Value(listener) {
					if _, isAlloc := x.Addr.(*ssa.Alloc); !isAlloc {
						return true
					}
				}
			}
			return false
		}
		bad := false
		// depth-first over the paths that have not registered the listener,
		// remembering how each condition on the way was decided (the answer
		// may be the looked-up flag itself: `return size, ok`)
		type pathFacts map[ssa.Value]bool
		var walk func(b *ssa.BasicBlock, facts pathFacts, onPath map[*ssa.BasicBlock]bool, budget *int)
		walk = func(b *ssa.BasicBlock, facts pathFacts, onPath map[*ssa.BasicBlock]bool, budget *int) {
			if bad || onPath[b] || *budget <= 0 {
				return
			}
			*budget--
			onPath[b] = true
			defer delete(onPath, b)
			for _, in := range b.Instrs {
				if hit(in) {
					return
				}
				if ret, isRet := in.(*ssa.Return); isRet && len(ret.Results) == 2 {
					for _, v := range c.resultValues(ret, 1) {
						if k, isConst := boolConstOf(v); isConst && k {
							continue
						}
						cv, truth := normCond(v, true)
						if decided, known := facts[cv]; known && decided == truth {
							continue // known to be true on this path
						}
						bad = true
						c.violate(rule, "listener-kept:"+refName(f), ret.Pos(), fnName(f), "the size is reported as not yet known on a path on which the listener was not handed to the record: the object that asked is never told and is never finalised, depending on the order in which objects arrive")
					}
					return
				}
			}
			if iff, isIf := b.Instrs[len(b.Instrs)-1].(*ssa.If); isIf && len(b.Succs) == 2 {
				cv, truth := normCond(iff.Cond, true)
				for i, sc := range b.Succs {
					nf := pathFacts{}
					for k, v := range facts {
						nf[k] = v
					}
					nf[cv] = truth == (i == 0)
					walk(sc, nf, onPath, budget)
				}
				return
			}
			for _, sc := range b.Succs {
				walk(sc, facts, onPath, budget)
			}
		}
		budget := 4000
		walk(f.Blocks[0], pathFacts{}, map[*ssa.BasicBlock]bool{}, &budget)
		if budget <= 0 && !bad {
			c.notDecided(rule, "listener-kept:"+refName(f), f.Pos(), "too many paths to enumerate")
			continue
		}
		if !bad {
			c.hold(rule, "listener-kept:"+refName(f), f.Pos(), "\"not known yet\" is answered only after the listener was registered")
		}
	}
	if n == 0 {
		c.notDecided(rule, "listener-kept", token.NoPos, "no method of Graph takes a listener and answers (size, known)")
	}
}

func derefType(t types.Type) types.Type {
	if p, ok := t.Underlying().(*types.Pointer); ok {
		return p.Elem()
	}
	return t
}

// ruleC14ConfigBeforeUse: a configured value takes effect like the option:
// it is in place before the option's variable is first put to use. A use of
// the variable (an argument of a module function, or the variable tested as
// a condition) that always executes before the read of its sizer.* key works
// with the default instead.
func ruleC14ConfigBeforeUse(c *Ctx) {
	const rule = "C14.families"
	mainImpl := c.fn("", "", "mainImplementation")
	if mainImpl == nil {
		return
	}
	families := map[interface{}][]string{}
	for _, r := range c.flagRegs() {
		if r.Call.Parent() != mainImpl {
			continue
		}
		for _, cell := range c.cellsOfFlagValue(r.ValueArg, 0) {
			families[cell] = append(families[cell], r.Name)
		}
	}
	allInstrs(mainImpl, func(in ssa.Instruction) {
		call, ok := in.(*ssa.Call)
		if !ok {
			return
		}
		cal := call.Call.StaticCallee()
		if cal == nil || pkgOf(cal) != modPath+"/git" || !strings.HasPrefix(refName(cal), "Config") || len(call.Call.Args) < 2 {
			return
		}
		key, ok := constStr(call.Call.Args[1])
		if !ok || !strings.HasPrefix(key, "sizer.") {
			return
		}
		// the option variable: the family cell stored to (or passed by
		// address) in the region after the read
		var cell interface{}
		for b := range reachable(call.Block()) {
			if !call.Block().Dominates(b) {
				continue
			}
			for _, ins := range b.Instrs {
				switch x := ins.(type) {
				case *ssa.Store:
					if k := c.varKey(x.Addr); k != nil && cell == nil {
						if _, isFam := families[k]; isFam {
							cell = k
						}
					}
				case *ssa.Call:
					for _, a := range x.Call.Args {
						if k := c.varKey(a); k != nil && cell == nil && x != call {
							if _, isFam := families[k]; isFam {
								cell = k
							}
						}
					}
				}
			}
			if cell != nil {
				break
			}
		}
		al, isAlloc := cell.(*ssa.Alloc)
		if !isAlloc {
			return
		}
		bad := false
		for _, r := range *al.Referrers() {
			ld, ok := r.(*ssa.UnOp)
			if !ok || ld.Op != token.MUL || ld.Block() == call.Block() || !ld.Block().Dominates(call.Block()) {
				continue
			}
			for _, u := range *ld.Referrers() {
				switch x := u.(type) {
				case *ssa.Call:
					if uc := x.Call.StaticCallee(); uc != nil && c.inRuleScope(uc) && pkgOf(uc) != modPath+"/git" {
						bad = true
						c.violate(rule, key+":before-use", x.Pos(), fnName(mainImpl), "the option's variable is handed to "+fnName(uc)+" before "+key+" is read: a configured value comes too late for that step, which works with the built-in default (the option on the command line does not)")
					}
				case *ssa.If:
					bad = true
					c.violate(rule, key+":before-use", x.Pos(), fnName(mainImpl), "the option's variable is tested before "+key+" is read: a configured value comes too late for that decision")
				}
			}
		}
		if !bad {
			c.hold(rule, key+":before-use", call.Pos(), "nothing uses the option's variable before the configured value is in place")
		}
	})
}

// ruleC18Borrowed2: progress never deadlocks the run: the ticker goroutine
// gives the lock back on every way out (C17.locks), and nothing but the
// report is written to, or handed, the report stream, whichever stream was
// chosen by a condition (C10.stdout).
func ruleC18Borrowed2(c *Ctx) {
	c.RuleAlias = map[string]string{"C17.locks": "C18.lockset", "C10.stdout": "C18.stream"}
	c.KeyOnly = func(key string) bool {
		return strings.Contains(key, ":release:") || strings.HasPrefix(key, "passed:")
	}
	defer func() { c.RuleAlias = nil; c.KeyOnly = nil }()
	ruleC17Locks(c)
	ruleC10Stdout(c)
}
