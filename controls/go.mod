module controls

go 1.23
