// Package controls holds deliberately offending functions. They are only
// ever analysed (never executed) by sizercheck: every zero-instance rule
// ("no X anywhere") must report the matching function here on each run,
// otherwise the rule's pattern is broken and the run is a CHECK-ERROR.
package controls

import (
	"fmt"
	"math/rand"
	"os"
	"os/exec"
	"time"
)

// RangeOverMap iterates a map: iteration order is unspecified.
func RangeOverMap(m map[string]int) (s string) {
	for k := range m {
		s += k
	}
	return s
}

// RemoveFile mutates the file system.
func RemoveFile(p string) error { return os.Remove(p) }

// WriteFile mutates the file system.
func WriteFile(p string) error { return os.WriteFile(p, nil, 0o644) }

// PrintIt writes to the process's stdout directly.
func PrintIt() { fmt.Println("x") }

// SpawnIt starts a process without going through GitCommand.
func SpawnIt() error { return exec.Command("git", "gc").Run() }

// Clock reads the wall clock.
func Clock() int64 { return time.Now().Unix() }

// Dice uses a random source.
func Dice() int { return rand.Int() }

// Env reads the environment.
func Env() string { return os.Getenv("HOME") }
