#!/bin/bash
# Build the analyzer offline from /verif/checker. No network is used.
set -e
cd "$(dirname "$0")/checker"
export GOFLAGS=-mod=mod GOPROXY=off GOSUMDB=off GOTOOLCHAIN=local CGO_ENABLED=0
unset GOWORK
mkdir -p ../bin ../evidence/reports
go build -o ../bin/sizercheck .
echo "built $(cd .. && pwd)/bin/sizercheck"
